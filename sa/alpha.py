"""Alpha-normalisation of local variable names.

The rules name locals the way today's source does (``retval``, ``type_info``,
``frequencies`` ...).  A behaviour-preserving rename of a local must not
change any verdict, so before a module is analysed every local variable is
identified by its *role* - the way it is bound - and renamed back to the name
recorded for that role in ``local_names.json`` (generated from the tree the
rules were written against by ``tools/gen_local_names.py``).

Role of a local = the sorted set of its binding signatures inside the outermost
function that contains it:

    assign:<value expr>:<path in the target tuple>
    aug:<operator>:<value expr>
    for:<iter expr>:<path>        comp:<iter expr>:<path>
    with:<context expr>           except:<exception type>
    walrus:<value expr>

where every *other* local occurring in those expressions is replaced by ``_L``
(so the signature does not depend on any local name) and parameters,
attributes, globals and literals stay.  Locals with equal role are told apart
by the order of their first binding.  A local whose role is unknown keeps its
name: nothing is guessed, and a changed definition is never mapped.
"""
import ast
import copy
import json
import os

FUNC = (ast.FunctionDef, ast.AsyncFunctionDef)
TABLE_FILE = os.path.join(os.path.dirname(os.path.abspath(__file__)),
                          'local_names.json')
_table = None


def table():
    global _table
    if _table is None:
        try:
            with open(TABLE_FILE) as f:
                _table = json.load(f)
        except (OSError, ValueError):
            _table = {}
    return _table


def outer_functions(tree):
    """(qualname, node) of every function that is not nested in a function."""
    out = []

    def walk(body, prefix):
        for n in body:
            if isinstance(n, FUNC):
                out.append((prefix + n.name, n))
            elif isinstance(n, ast.ClassDef):
                walk(n.body, prefix + n.name + '.')
            elif isinstance(n, (ast.If, ast.Try, ast.With)):
                for fld in ('body', 'orelse', 'finalbody'):
                    walk(getattr(n, fld, []) or [], prefix)
                for h in getattr(n, 'handlers', []) or []:
                    walk(h.body, prefix)
    walk(tree.body, '')
    # duplicates (property setters, conditional definitions) get an index
    seen = {}
    res = []
    for q, n in out:
        k = seen.get(q, 0)
        seen[q] = k + 1
        res.append((q if k == 0 else '%s#%d' % (q, k), n))
    return res


def _params(fn):
    a = fn.args
    out = {x.arg for x in a.args + a.kwonlyargs + getattr(a, 'posonlyargs',
                                                           [])}
    if a.vararg:
        out.add(a.vararg.arg)
    if a.kwarg:
        out.add(a.kwarg.arg)
    return out


def _targets(t, path=''):
    """(Name node, path) for every name bound by assignment target t."""
    if isinstance(t, ast.Name):
        yield t, path
    elif isinstance(t, (ast.Tuple, ast.List)):
        for i, e in enumerate(t.elts):
            for x in _targets(e, '%s.%d' % (path, i)):
                yield x
    elif isinstance(t, ast.Starred):
        for x in _targets(t.value, path + '*'):
            yield x


def bindings(fn):
    """[(name, kind, expr or None, extra, lineno)] for the whole subtree of
    fn, nested functions and lambdas included (their own parameters are
    reported as kind 'param')."""
    out = []
    skip = set()
    for n in ast.walk(fn):
        if isinstance(n, (ast.Global, ast.Nonlocal)):
            skip.update(n.names)
        if n is not fn and isinstance(n, FUNC + (ast.ClassDef,)):
            skip.add(n.name)
        if isinstance(n, (ast.Import, ast.ImportFrom)):
            for a in n.names:
                skip.add((a.asname or a.name).split('.')[0])
        if n is not fn and isinstance(n, FUNC + (ast.Lambda,)):
            skip.update(_params(n))
    for n in ast.walk(fn):
        ln = getattr(n, 'lineno', 0)
        if isinstance(n, ast.Assign):
            for t in n.targets:
                for nm, path in _targets(t):
                    out.append((nm.id, 'assign', n.value, path, ln))
        elif isinstance(n, ast.AnnAssign) and n.value is not None:
            for nm, path in _targets(n.target):
                out.append((nm.id, 'assign', n.value, path, ln))
        elif isinstance(n, ast.AugAssign):
            for nm, path in _targets(n.target):
                out.append((nm.id, 'aug', n.value, type(n.op).__name__, ln))
        elif isinstance(n, (ast.For, ast.AsyncFor)):
            for nm, path in _targets(n.target):
                out.append((nm.id, 'for', n.iter, path, ln))
        elif isinstance(n, ast.comprehension):
            for nm, path in _targets(n.target):
                out.append((nm.id, 'comp', n.iter, path,
                            getattr(n.iter, 'lineno', 0)))
        elif isinstance(n, (ast.With, ast.AsyncWith)):
            for it in n.items:
                if it.optional_vars is not None:
                    for nm, path in _targets(it.optional_vars):
                        out.append((nm.id, 'with', it.context_expr, path, ln))
        elif isinstance(n, ast.ExceptHandler) and n.name:
            out.append((n.name, 'except', n.type, '', ln))
        elif isinstance(n, ast.NamedExpr):
            out.append((n.target.id, 'walrus', n.value, '', ln))
    return [b for b in out if b[0] not in skip]


class _Anon(ast.NodeTransformer):
    def __init__(self, names):
        self.names = names

    def visit_Name(self, n):
        if n.id in self.names:
            return ast.copy_location(ast.Name(id='_L', ctx=n.ctx), n)
        return n


def roles(fn):
    """-> {local name: (role signature, first line)}"""
    params = _params(fn)
    bs = [b for b in bindings(fn) if b[0] not in params]
    names = {b[0] for b in bs}
    sigs = {}
    first = {}
    for name, kind, expr, extra, ln in bs:
        if expr is None:
            txt = ''
        else:
            # anonymise the other locals in place, print, restore (a deep
            # copy would follow parent links through the whole module)
            touched = [(n, n.id) for n in ast.walk(expr)
                       if isinstance(n, ast.Name) and n.id in names]
            for n, _ in touched:
                n.id = '_L'
            try:
                txt = ast.unparse(expr)
            finally:
                for n, old in touched:
                    n.id = old
        sigs.setdefault(name, set()).add('%s:%s:%s' % (kind, txt, extra))
        first[name] = min(first.get(name, ln), ln)
    return {n: ('|'.join(sorted(s)), first[n]) for n, s in sigs.items()}


def role_table(fn):
    """[(signature, ordinal, name)] ordinal = order among equal signatures."""
    r = roles(fn)
    by = {}
    for name, (sig, ln) in r.items():
        by.setdefault(sig, []).append((ln, name))
    out = []
    for sig, lst in by.items():
        for i, (ln, name) in enumerate(sorted(lst)):
            out.append((sig, i, name))
    return out


def module_table(tree):
    return {q: sorted(role_table(fn)) for q, fn in outer_functions(tree)}



# ---------------------------------------------------------------------------
# un-aliasing of locals that the recorded tree does not have
# ---------------------------------------------------------------------------
def _pure(e, depth=0):
    """Expressions that may be substituted for a single-assignment local: name
    and attribute chains, constants, constant subscripts, zero-argument method
    calls on a chain (getters) and getattr() with constant arguments."""
    if depth > 6:
        return False
    if isinstance(e, (ast.Name, ast.Constant)):
        return True
    if isinstance(e, ast.Attribute):
        return _pure(e.value, depth + 1)
    if isinstance(e, ast.Subscript):
        return _pure(e.value, depth + 1) and isinstance(e.slice, ast.Constant)
    if isinstance(e, ast.Compare):
        return _pure(e.left, depth + 1) and all(
            _pure(c, depth + 1) for c in e.comparators)
    if isinstance(e, ast.BoolOp):
        return all(_pure(v, depth + 1) for v in e.values)
    if isinstance(e, ast.UnaryOp) and isinstance(e.op, ast.Not):
        return _pure(e.operand, depth + 1)
    if isinstance(e, ast.Tuple) and e.elts:
        # an immutable table kept in a local
        return all(_pure(x, depth + 1) for x in e.elts)
    if isinstance(e, ast.Call):
        if isinstance(e.func, ast.Name) and e.func.id in (
                'len', 'isinstance', 'issubclass', 'type', 'id', 'bool',
                'abs', 'min', 'max') and not e.keywords and all(
                _pure(a, depth + 1) for a in e.args):
            return True
        if isinstance(e.func, ast.Attribute) and not e.args and \
                not e.keywords:
            return _pure(e.func.value, depth + 1)
        if isinstance(e.func, ast.Name) and e.func.id == 'getattr' and \
                e.args and _pure(e.args[0], depth + 1) and all(
                isinstance(a, ast.Constant) for a in e.args[1:]):
            return True
    return False


class _Subst(ast.NodeTransformer):
    def __init__(self, name, expr):
        self.name, self.expr = name, expr
        self.n = 0

    def visit_Name(self, n):
        if n.id == self.name and isinstance(n.ctx, ast.Load):
            self.n += 1
            new = ast.copy_location(copy.deepcopy(self.expr), n)
            if isinstance(new, ast.Tuple):
                for x in ast.walk(new):
                    x._tn_new = True
            return new
        return n


def _chained_alias(fn, name, lst, bs):
    """``x = obj.attr = value`` (x bound only there): x aliases obj.attr until
    either is re-bound; substitute and drop x from the targets."""
    if len(lst) != 1 or lst[0][1] != 'assign' or lst[0][3] != '':
        return False
    expr = lst[0][2]
    stmt = None
    for n in ast.walk(fn):
        if isinstance(n, ast.Assign) and n.value is expr and \
                len(n.targets) >= 2:
            stmt = n
    if stmt is None:
        return False
    mine = [t for t in stmt.targets if isinstance(t, ast.Name) and
            t.id == name]
    chains = [t for t in stmt.targets if isinstance(t, ast.Attribute) and
              _pure(t)]
    if len(mine) != 1 or not chains:
        return False
    chain = chains[0]
    uses = [n for n in ast.walk(fn) if isinstance(n, ast.Name) and
            n.id == name and isinstance(n.ctx, ast.Load)]
    if any(u.lineno <= stmt.lineno for u in uses):
        return False
    last = max([u.lineno for u in uses] or [stmt.lineno])
    roots = {n.id for n in ast.walk(chain) if isinstance(n, ast.Name)}
    for b in bs:
        if b[0] in roots and stmt.lineno < b[4] <= last:
            return False
    text = ast.unparse(chain)
    par = {}
    for n in ast.walk(fn):
        for c in ast.iter_child_nodes(n):
            par[c] = n

    def chain_up(x):
        out = []
        while x in par:
            out.append((par[x], x))
            x = par[x]
        return out

    def exclusive(a, b):
        """a and b sit in different branches of one ``if``."""
        ca = {id(p_): ch for p_, ch in chain_up(a)}
        for p_, ch in chain_up(b):
            if isinstance(p_, ast.If) and id(p_) in ca:
                cha = ca[id(p_)]
                in_body = lambda x: any(x is y for y in p_.body)
                in_else = lambda x: any(x is y for y in p_.orelse)
                if (in_body(cha) and in_else(ch)) or (
                        in_else(cha) and in_body(ch)):
                    return True
        return False

    def loops_of(x):
        return [p_ for p_, _ in chain_up(x)
                if isinstance(p_, (ast.For, ast.While))]

    for n in ast.walk(fn):
        if isinstance(n, (ast.Assign, ast.AugAssign)) and n is not stmt and \
                stmt.lineno < n.lineno <= last:
            tg = n.targets if isinstance(n, ast.Assign) else [n.target]
            if not any(ast.unparse(t) == text for t in tg):
                continue
            # a loop around the re-binding that does not re-run the alias
            if any(lp not in loops_of(stmt) for lp in loops_of(n)):
                return False
            inside = {id(x) for x in ast.walk(n.value)}
            for u in uses:
                if u.lineno < n.lineno or id(u) in inside:
                    continue        # read before the store
                if exclusive(n, u):
                    continue
                return False
    load = copy.deepcopy(chain)
    for n in ast.walk(load):
        if hasattr(n, 'ctx'):
            n.ctx = ast.Load()
    _Subst(name, load).visit(fn)
    stmt.targets = [t for t in stmt.targets if t is not mine[0]]
    return True


def _remove_stmt(fn, stmt):
    """Delete stmt from the statement list that holds it (``pass`` if the
    list would become empty)."""
    for n in ast.walk(fn):
        for fld in ('body', 'orelse', 'finalbody'):
            lst = getattr(n, fld, None)
            if isinstance(lst, list) and stmt in lst:
                lst.remove(stmt)
                if not lst and fld == 'body':
                    lst.append(ast.copy_location(ast.Pass(), stmt))
                return True
    return False


def unalias(fn, known_names, wanted=None):
    """Substitute, in place, every local of fn that (a) is not one of
    ``known_names`` (the locals recorded for this function), (b) is bound
    exactly once, by a plain ``x = <pure expression>``, and (c) whose
    expression's root names are not re-bound while it is live.  Returns the
    number of locals removed."""
    params = _params(fn)
    removed = 0
    for _ in range(24):         # aliases of aliases
        bs = bindings(fn)
        by = {}
        for b in bs:
            by.setdefault(b[0], []).append(b)
        if wanted is not None:
            # recomputed every round: removing one alias can give another
            # local its recorded role back
            known_names = {nm for s_, i_, nm in role_table(fn)
                           if (s_, i_) in wanted}
        done = False
        for name, lst in sorted(by.items(),
                                key=lambda kv: min(b[4] for b in kv[1])):
            if name in known_names or name in params or \
                    name == '__dropped':
                continue
            if len(lst) != 1:
                if _chained_alias(fn, name, lst, bs):
                    removed += 1
                    done = True
                    break
                continue
            if _chained_alias(fn, name, lst, bs):
                removed += 1
                done = True
                break
            nm, kind, expr, extra, ln = lst[0]
            if kind != 'assign' or extra != '' or not _pure(expr):
                continue
            # locate the statement
            stmt = None
            for n in ast.walk(fn):
                if isinstance(n, ast.Assign) and n.value is expr and \
                        len(n.targets) == 1 and isinstance(
                        n.targets[0], ast.Name):
                    stmt = n
            if stmt is None:
                continue
            uses = [n for n in ast.walk(fn) if isinstance(n, ast.Name) and
                    n.id == name and isinstance(n.ctx, ast.Load)]
            if any(u.lineno < stmt.lineno for u in uses):
                continue
            last = max([u.lineno for u in uses] or [stmt.lineno])
            roots = {n.id for n in ast.walk(expr) if isinstance(n, ast.Name)}
            rebound = False
            for b in bs:
                if b[0] in roots and stmt.lineno < b[4] <= last:
                    rebound = True
            if rebound or name in roots:
                continue
            _Subst(name, expr).visit(fn)
            # the binding statement becomes a no-op
            if not _remove_stmt(fn, stmt):
                stmt.targets = [ast.Name(id='__dropped', ctx=ast.Store())]
                stmt.value = ast.Constant(value=None)
            removed += 1
            done = True
            break
        if not done:
            break
    return removed



def restore_renamed_functions(tree, rec):
    """A private function that the recorded tree has under another name (the
    only one its scope lost, for the only one it gained, same parameter count)
    gets its recorded name back, with every reference in the module.
    -> {new name: recorded name}"""
    known = rec.get('__functions__')
    params = rec.get('__params__') or {}
    if not known:
        return {}
    cur = dict(outer_functions(tree))
    removed = set(known) - set(cur)
    added = set(cur) - set(known)
    by_scope = {}
    for q in removed:
        by_scope.setdefault(q.rpartition('.')[0], ([], []))[0].append(q)
    for q in added:
        by_scope.setdefault(q.rpartition('.')[0], ([], []))[1].append(q)
    used = set()
    for n in ast.walk(tree):
        if isinstance(n, ast.Name):
            used.add(n.id)
        elif isinstance(n, ast.Attribute):
            used.add(n.attr)
    ren = {}
    for scope, (rem, add) in by_scope.items():
        if len(rem) != 1 or len(add) != 1:
            continue
        old = rem[0].rpartition('.')[2]
        new = add[0].rpartition('.')[2]
        if not (old.startswith('_') and new.startswith('_')) or (
                old.endswith('__') or new.endswith('__')):
            continue
        if old in used or new in ren:
            continue
        if len(param_list(cur[add[0]])) != len(params.get(rem[0], [])):
            continue
        ren[new] = old
    if not ren:
        return ren
    for n in ast.walk(tree):
        if isinstance(n, FUNC) and n.name in ren:
            n.name = ren[n.name]
        elif isinstance(n, ast.Name) and n.id in ren:
            n.id = ren[n.id]
        elif isinstance(n, ast.Attribute) and n.attr in ren:
            n.attr = ren[n.attr]
    return ren


def param_list(fn):
    a = fn.args
    out = [x.arg for x in getattr(a, 'posonlyargs', []) + a.args]
    out.append('*' + a.vararg.arg if a.vararg else '*')
    out += [x.arg for x in a.kwonlyargs]
    out.append('**' + a.kwarg.arg if a.kwarg else '**')
    return out


def restore_params(tree, base):
    """A private function whose parameters were renamed (same arity, same
    kinds) gets its recorded parameter names back, in its body and in the
    keyword arguments of calls by that name inside the module.  Public names
    are left alone: renaming a public parameter changes the API."""
    rec = base.get('__params__') or {}
    count = 0
    kw_maps = {}
    for q, fn in outer_functions(tree):
        want = rec.get(q)
        short = q.rsplit('.', 1)[-1]
        if want is None or not short.startswith('_') or \
                short.startswith('__') and short.endswith('__'):
            continue
        cur = param_list(fn)
        if len(cur) != len(want) or cur == want:
            continue
        if cur.index('*') != want.index('*') if (
                '*' in cur and '*' in want) else False:
            continue
        mapping = {}
        okay = True
        for c, w in zip(cur, want):
            if c.startswith('*') != w.startswith('*'):
                okay = False
                break
            c2, w2 = c.lstrip('*'), w.lstrip('*')
            if c2 and w2 and c2 != w2:
                mapping[c2] = w2
        if not okay or not mapping:
            continue
        used = {n.id for n in ast.walk(fn) if isinstance(n, ast.Name)}
        if any(w in used and w not in mapping for w in mapping.values()):
            continue
        for a in ast.walk(fn):
            if isinstance(a, ast.arg) and a.arg in mapping:
                a.arg = mapping[a.arg]
        _Rename(mapping).visit(fn)
        kw_maps[short] = mapping
        count += len(mapping)
    if kw_maps:
        for c in ast.walk(tree):
            if isinstance(c, ast.Call):
                nm = c.func.attr if isinstance(c.func, ast.Attribute) else (
                    c.func.id if isinstance(c.func, ast.Name) else None)
                m = kw_maps.get(nm)
                if m:
                    for k in c.keywords:
                        if k.arg in m:
                            k.arg = m[k.arg]
    return count


class _Rename(ast.NodeTransformer):
    def __init__(self, mapping):
        self.m = mapping

    def visit_Name(self, n):
        if n.id in self.m:
            n.id = self.m[n.id]
        return n

    def visit_ExceptHandler(self, n):
        self.generic_visit(n)
        if n.name in self.m:
            n.name = self.m[n.name]
        return n


def normalise(tree, relpath):
    """Rename locals of every function in tree to their recorded names.
    Returns the number of renamed variables."""
    if os.environ.get('VERIF_NO_ALPHA'):
        return 0
    base = table().get(relpath)
    if not base:
        return 0
    count = restore_params(tree, base)
    for q, fn in outer_functions(tree):
        want = base.get(q)
        if want is None and q in (base.get('__functions__') or ()):
            want = []
        if want is None:
            continue
        # locals the recorded tree does not have and that merely alias a
        # pure expression are substituted away first
        known = {nm for s, i, nm in want}
        cur_names = {nm for s, i, nm in role_table(fn)}
        if cur_names - known:
            cur_sigs = {(s, i) for s, i, nm in role_table(fn)}
            wanted = {(s, i) for s, i, nm in want}
            # names whose role is recorded keep their variable
            keep = {nm for s, i, nm in role_table(fn) if (s, i) in wanted}
            count += unalias(fn, keep, wanted)
        if not want:
            continue
        want = {(s, i): nm for s, i, nm in want}
        cur = role_table(fn)
        mapping = {}
        for sig, i, name in cur:
            w = want.get((sig, i))
            if w is not None and w != name:
                mapping[name] = w
        if not mapping:
            continue
        # a target name must not be in use by a variable that stays
        used = {n.id for n in ast.walk(fn) if isinstance(n, ast.Name)} | \
            _params(fn)
        staying = used - set(mapping)
        mapping = {a: b for a, b in mapping.items() if b not in staying}
        # and two variables must not be mapped onto one name
        tgt = list(mapping.values())
        mapping = {a: b for a, b in mapping.items() if tgt.count(b) == 1}
        if mapping:
            _Rename(mapping).visit(fn)
            count += len(mapping)
    return count
