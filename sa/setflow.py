"""Unordered-iteration analysis: find iterations over set-typed expressions
whose order can reach an order-sensitive sink."""
import ast

from .core import dotted, unparse, call_name, walk_no_defs, parent, ancestors

ORDER_SINKS = {'append', 'insert', 'extend', 'SubElement', 'Element', 'set',
               'write', 'send', 'get_namespace_prefix', 'appendleft',
               'addnext', 'addprevious', 'update', 'setdefault',
               'add_class', 'append_field', 'insert_field'}
INSENSITIVE = {'add', 'discard', 'remove', 'issubset', 'issuperset', 'debug',
               'info', 'warning', 'error', 'isinstance', 'issubclass', 'len',
               'get', 'startswith'}


def set_typed_names(fnode, class_set_attrs=()):
    """Local names (and self attributes) that hold sets in this function."""
    names = set()
    changed = True
    while changed:
        changed = False
        for n in walk_no_defs(fnode):
            if isinstance(n, ast.Assign):
                if is_set_expr(n.value, names, class_set_attrs):
                    for t in n.targets:
                        key = None
                        if isinstance(t, ast.Name):
                            key = t.id
                        elif isinstance(t, ast.Attribute):
                            key = unparse(t)
                        if key and key not in names:
                            names.add(key)
                            changed = True
            if isinstance(n, ast.AugAssign) and isinstance(
                    n.op, (ast.BitOr, ast.Sub, ast.BitAnd)):
                pass
    return names


def is_set_expr(e, names=(), class_set_attrs=()):
    if isinstance(e, (ast.Set, ast.SetComp)):
        return True
    if isinstance(e, ast.Call):
        nm = call_name(e)
        if nm in ('set', 'frozenset') and isinstance(e.func, ast.Name):
            return True
        if nm in ('union', 'intersection', 'difference',
                  'symmetric_difference') and isinstance(
                e.func, ast.Attribute) and is_set_expr(e.func.value, names,
                                                       class_set_attrs):
            return True
        if nm in ('keys',) and isinstance(e.func, ast.Attribute) and \
                is_set_expr(e.func.value, names, class_set_attrs):
            return True
        return False
    if isinstance(e, ast.BinOp) and isinstance(e.op, (ast.BitOr, ast.Sub,
                                                      ast.BitAnd, ast.BitXor)):
        return is_set_expr(e.left, names, class_set_attrs) or \
            is_set_expr(e.right, names, class_set_attrs)
    if isinstance(e, ast.Name):
        return e.id in names
    if isinstance(e, ast.Attribute):
        t = unparse(e)
        return t in names or e.attr in class_set_attrs
    if isinstance(e, ast.Subscript):
        # defaultdict(set)[k] / dict of sets
        base = e.value
        if isinstance(base, ast.Attribute) and \
                ('%s[]' % base.attr) in class_set_attrs:
            return True
        if isinstance(base, ast.Name) and ('%s[]' % base.id) in names:
            return True
    return False


def class_set_attributes(cnode):
    """Attribute names of a class that are assigned sets ('x') or containers
    of sets ('x[]', e.g. defaultdict(set)) anywhere in the class."""
    out = set()
    for n in ast.walk(cnode):
        if isinstance(n, ast.Assign):
            for t in n.targets:
                if isinstance(t, ast.Attribute) and isinstance(
                        t.value, ast.Name) and t.value.id == 'self':
                    v = n.value
                    if is_set_expr(v):
                        out.add(t.attr)
                    if isinstance(v, ast.Call) and call_name(v) == \
                            'defaultdict' and v.args and isinstance(
                            v.args[0], ast.Name) and v.args[0].id in (
                            'set', 'frozenset'):
                        out.add(t.attr + '[]')
                    if isinstance(v, ast.Dict) and v.values and all(
                            is_set_expr(x) for x in v.values):
                        out.add(t.attr + '[]')
                # self.x[k] = set()
                if isinstance(t, ast.Subscript) and isinstance(
                        t.value, ast.Attribute) and isinstance(
                        t.value.value, ast.Name) and \
                        t.value.value.id == 'self' and is_set_expr(n.value):
                    out.add(t.value.attr + '[]')
    return out


def _lossy_key(k):
    """Keys that do not separate distinct class objects: repr (customized
    variants share it), __name__ / get_type_name (namespaces share them)."""
    for x in ast.walk(k):
        if isinstance(x, ast.Name) and x.id == 'repr':
            return True
        if isinstance(x, ast.Attribute) and x.attr in (
                '__name__', '__qualname__', 'get_type_name'):
            return True
    return False


def _reaching_is_set(fnode, use, expr, names, class_set_attrs):
    """For a plain name: is the nearest assignment above the use (by line) a
    set?  Names typed as sets only by a later re-assignment are lists here."""
    if not isinstance(expr, ast.Name):
        return True
    prev = [a for a in walk_no_defs(fnode) if isinstance(a, ast.Assign) and
            any(isinstance(t, ast.Name) and t.id == expr.id
                for t in a.targets) and a.lineno < use.lineno]
    if not prev:
        return True
    last = max(prev, key=lambda a: a.lineno)
    return is_set_expr(last.value, names - {expr.id}, class_set_attrs)


def unordered_iterations(fnode, names, class_set_attrs=()):
    """[(node, iter expr, sinks)] iterations over set-typed expressions not
    wrapped in sorted() whose body/element reaches an order-sensitive sink."""
    out = []
    for n in walk_no_defs(fnode):
        it = None
        body = None
        if isinstance(n, (ast.For, ast.AsyncFor)):
            it, body = n.iter, n.body
        elif isinstance(n, ast.comprehension):
            it = n.iter
            p = parent(n)
            body = [p]
        elif isinstance(n, ast.Call) and call_name(n) in ('list', 'tuple',
                                                          'join',
                                                          'enumerate') and \
                n.args:
            if is_set_expr(n.args[0], names, class_set_attrs) and \
                    _reaching_is_set(fnode, n, n.args[0], names,
                                     class_set_attrs):
                out.append((n, n.args[0], [call_name(n) + '()']))
            continue
        if isinstance(n, ast.Call) and call_name(n) == 'sorted' and n.args \
                and any(k.arg == 'key' and _lossy_key(k.value)
                        for k in n.keywords) and \
                is_set_expr(n.args[0], names, class_set_attrs) and \
                _reaching_is_set(fnode, n, n.args[0], names, class_set_attrs):
            # a keyed sort is stable: elements that tie under the key (two
            # classes with one repr) keep the order the set iterates in
            out.append((n, n.args[0], ['sorted(key=...) ties']))
            continue
        if it is None:
            continue
        if isinstance(it, ast.Call) and call_name(it) in ('sorted',):
            continue
        if isinstance(it, ast.Call) and call_name(it) == 'enumerate' and \
                it.args:
            it = it.args[0]
        if not is_set_expr(it, names, class_set_attrs):
            continue
        if not _reaching_is_set(fnode, n if hasattr(n, 'lineno') else it, it,
                                names, class_set_attrs):
            continue
        sinks = []
        if isinstance(n, ast.comprehension):
            p = parent(n)
            if isinstance(p, (ast.ListComp, ast.GeneratorExp)):
                # a list built from a set keeps the set's order unless sorted
                pp = parent(p)
                if not (isinstance(pp, ast.Call) and call_name(pp) in (
                        'sorted', 'set', 'frozenset', 'any', 'all', 'sum',
                        'min', 'max', 'len')):
                    sinks.append('list from set')
        else:
            for s in body:
                for x in ast.walk(s):
                    if isinstance(x, ast.Call):
                        nm = call_name(x)
                        if nm in ORDER_SINKS:
                            sinks.append(nm)
                    if isinstance(x, (ast.Yield, ast.YieldFrom)):
                        sinks.append('yield')
                    if isinstance(x, ast.Assign) and any(
                            isinstance(t, ast.Subscript) for t in x.targets):
                        sinks.append('item store')
        if sinks:
            out.append((n, it, sorted(set(sinks))))
    return out
